"""C13 -- boundary regions describe closed surfaces consistently with the volume (DESIGN.md section 3, C13)."""

import itertools
from fractions import Fraction

import os

import numpy as np

from .. import ring, npmodel, micro
from ..ring import P, sym, is_zero, ZERO, ONE
from ..common import new_interp, symarray, finish_info, method_where, functions_in
from ..interp import InterpRaise
from .c17 import leibniz

SPEC = dict(
    level="proof",
    rule="the six face / rotated-cell index tables are extracted by evaluating boundary_cells_* from source on a one-cell mesh; for every "
    "face the rotated cell must be the reference cell of the matching element class (C04's points) re-parametrised by a proper rotation "
    "(signed permutation matrix with det +1), its first nodes must be the nodes of the facet xi_last = -1, and the facets must be pairwise "
    "distinct and cover all 4 / 6 sides; RegionBoundary._init_faces on a symbolic Jacobian: dA . X_last == -det(dXdr) w (outward at that "
    "facet for positive volumes), |normals| == 1, tangents unit and orthogonal to dA; RegionBoundary.__init__ on concrete two-cell "
    "meshes of all six cell types (distorted, exact rational coordinates): selected faces == faces whose node set occurs once "
    "(only_surface) / all faces, restricted to faces all of whose points satisfy the mask; sum of area vectors == 0 and flux of the "
    "position vector == dim * volume exactly on those meshes.",
    trusted_base=["C04 reference points of the element classes", "numpy sort / unique / isin on integer arrays (native)",
                  "closure on every valid mesh follows from the per-face rotation property by the divergence theorem (stated, not mechanised)"],
    explanation="constant-table analysis with exact rational geometry + algebraic value numbering of _init_faces",
    exhaustive=True,
    not_decided=["closure sums on arbitrary concrete meshes (follow from the table facts)"],
    assumptions=["real arithmetic"],
)

FLOORS = {"boundary cell tables": ("tables", 6)}

TABLES = [
    ("quad", "boundary_cells_quad", "felupe.element._quad:Quad", 4),
    ("quad8", "boundary_cells_quad8", "felupe.element._quad:QuadraticQuad", 8),
    ("quad9", "boundary_cells_quad9", "felupe.element._quad:BiQuadraticQuad", 9),
    ("hexahedron", "boundary_cells_hexahedron", "felupe.element._hexahedron:Hexahedron", 8),
    ("hexahedron20", "boundary_cells_hexahedron20", "felupe.element._hexahedron:QuadraticHexahedron", 20),
    ("hexahedron27", "boundary_cells_hexahedron27", "felupe.element._hexahedron:TriQuadraticHexahedron", 27),
]


def tasks(tier):
    ts = [("discovery", "run_discovery", {})]
    for ct, fn, el, n in TABLES:
        ts.append(("table %s" % ct, "run_table", dict(cell_type=ct, fname=fn, elname=el, nnodes=n)))
    ts.append(("init_faces", "run_init_faces", {}))
    for ct, fn, el, n in TABLES:
        ts.append(("selection %s" % ct, "run_selection", dict(cell_type=ct, elname=el, nnodes=n)))
    return ts


def run_discovery(col):
    it = new_interp()
    fs = [f.qualname for f in functions_in(it, "felupe.region._boundary") if f.qualname.startswith("boundary_cells_")]
    col.info["tables"] = fs
    known = {t[1] for t in TABLES}
    extra = [f for f in fs if f not in known]
    if extra:
        col.undecided("C13.O1", ",".join(extra), "every boundary_cells_* table has a matching element class in the checker", "unknown tables %s" % extra)
    finish_info(col, it)


class OneCell:
    def __init__(self, n):
        self.cells = np.arange(n).reshape(1, n)


def signed_perms(dim):
    for perm in itertools.permutations(range(dim)):
        for signs in itertools.product((1, -1), repeat=dim):
            R = [[0] * dim for _ in range(dim)]
            for i in range(dim):
                R[i][perm[i]] = signs[i]
            yield R


def det_int(R):
    n = len(R)
    if n == 2:
        return R[0][0] * R[1][1] - R[0][1] * R[1][0]
    return sum(R[0][j] * (-1) ** j * det_int([row[:j] + row[j + 1:] for row in R[1:]]) for j in range(n))


def run_table(col, cell_type, fname, elname, nnodes):
    it = new_interp()
    f = it.get("felupe.region._boundary:" + fname)
    cells, cells_faces = it.call(f, [OneCell(nnodes)], {})
    cells = npmodel.to_int_array(np.asarray(cells))[0]
    cells_faces = npmodel.to_int_array(np.asarray(cells_faces))[0]
    el = it.call(it.get(elname), [], {})
    pts = npmodel.to_obj(it.getattr(el, "points"))
    pts = [[p.const_value() for p in row] for row in pts]
    dim = len(pts[0])
    nfaces = cells.shape[0]
    where = "region/_boundary.py %s" % fname
    col.add("C13.O2", "%s face count" % cell_type, "one face entry per side of the cell (4 / 6)", nfaces == 2 * dim and cells.shape[1] == nnodes, "cells %s" % (cells.shape,))
    normals = []
    for fidx in range(nfaces):
        pi = cells[fidx].tolist()
        isperm = sorted(pi) == list(range(nnodes))
        col.add("C13.O1", "%s face %d permutation" % (cell_type, fidx), "the rotated cell lists every local node exactly once", isperm, "%s: %s" % (where, pi))
        if not isperm:
            continue
        found = None
        for R in signed_perms(dim):
            if all([sum(R[i][k] * pts[a][k] for k in range(dim)) for i in range(dim)] == pts[pi[a]] for a in range(nnodes)):
                found = R
                break
        okk = found is not None and det_int(found) == 1
        col.add("C13.O1", "%s face %d rotation" % (cell_type, fidx),
                "points[pi(a)] == R points[a] for all nodes with R a proper rotation of the reference cell (positive volumes, shape functions apply unchanged)", okk,
                "%s: %s" % (where, "no signed permutation matrix maps the reference nodes onto the rotated cell" if found is None else "R = %s has det %d (reflection: negative volumes)" % (found, det_int(found))))
        if found is None:
            continue
        # facet: nodes with last coordinate -1 in the rotated parametrisation are the listed face nodes
        facet_local = [a for a in range(nnodes) if pts[a][-1] == -1]
        want = sorted(pi[a] for a in facet_local)
        got = sorted(cells_faces[fidx].tolist())
        col.add("C13.O2", "%s face %d nodes" % (cell_type, fidx), "cells_faces lists exactly the nodes of the facet xi_last = -1 of the rotated cell", want == got,
                "%s: listed %s, facet %s" % (where, got, want))
        # outward normal of that facet in the original cell: R (-e_last)
        nrm = tuple(-found[i][dim - 1] for i in range(dim))
        normals.append(nrm)
    want_n = set()
    for i in range(dim):
        for s in (1, -1):
            want_n.add(tuple(s if k == i else 0 for k in range(dim)))
    col.add("C13.O2", "%s facets cover the cell" % cell_type, "the faces are pairwise distinct and cover all sides of the cell", len(normals) == len(set(normals)) and set(normals) == want_n,
            "%s: outward normals %s" % (where, normals))
    finish_info(col, it)


class FakeSelf:
    pass


def run_init_faces(col):
    it = new_interp()
    cls = it.get("felupe.region._boundary:RegionBoundary")
    fn = cls.find("_init_faces")[0]
    w = method_where(cls, "_init_faces")
    for cell_type, dim, e3 in (("quad", 2, False), ("quad8", 2, True), ("hexahedron", 3, False), ("hexahedron27", 3, False)):
        nq, nc = 2, 2
        s = FakeSelf()
        s.mesh = FakeSelf()
        s.mesh.cell_type = cell_type
        s.dXdr = symarray("G", (dim, dim, nq, nc))
        G0 = s.dXdr.copy()
        s.quadrature = FakeSelf()
        s.quadrature.weights = symarray("w", (nq,), positive=True)
        s.ensure_3d = e3
        world = "generic"
        try:
            dA, dV, normals, tangents = it.call(fn, [s], {})
        except (ring.Undecided, InterpRaise) as e:
            if "order comparison" not in str(e):
                raise
            # the routine compares a geometric quantity with an absolute constant: the outcome depends on the size of the cells.  The property
            # is stated for every valid mesh, in particular for the same mesh scaled down: in the small-cell world (dXdr -> t dXdr, t -> 0+)
            # every quantity that vanishes with dXdr lies below any positive constant (and above any negative one)
            gsyms = {P(v) for v in G0.reshape(-1)}
            zero_map = {v: ZERO for v in G0.reshape(-1)}

            def small_cells(lhs, rhs, op):
                for a, b, flip in ((lhs, rhs, False), (rhs, lhs, True)):
                    b = P(b)
                    if b.is_const() and b.const_value() != 0 and not P(a).is_const():
                        try:
                            vanishes = is_zero(ring.subs(P(a), zero_map))
                        except Exception:
                            return None
                        if not vanishes:
                            return None
                        c = b.const_value()
                        o = {"<": ">", ">": "<", "<=": ">=", ">=": "<="}[op] if flip else op
                        return {"<": 0 < c, "<=": 0 <= c, ">": 0 > c, ">=": 0 >= c}[o]
                return None

            s.dXdr = G0.copy()
            ring.ORDER_ORACLE[0] = small_cells
            try:
                dA, dV, normals, tangents = it.call(fn, [s], {})
            finally:
                ring.ORDER_ORACLE[0] = None
            world = "small cells (absolute threshold in %s: %s)" % (w, str(e)[-90:])
            col.info.setdefault("scale_dependent_comparisons", []).append("%s: %s" % (cell_type, str(e)[:200]))
        bad_o, bad_n, bad_t = [], [], []
        for q in range(nq):
            for c in range(nc):
                M = G0[:, :, q, c]
                det = leibniz(M)
                dot_last = sum((P(dA[i, q, c]) * M[i, dim - 1] for i in range(dim)), ZERO)
                if not is_zero(dot_last + det * s.quadrature.weights[q]):
                    bad_o.append((q, c))
                # dA orthogonal to the in-face tangent directions
                for k in range(dim - 1):
                    if not is_zero(sum((P(dA[i, q, c]) * M[i, k] for i in range(dim)), ZERO)):
                        bad_o.append(("tangent-plane", k, q, c))
                nn = sum((P(normals[i, q, c]) * P(normals[i, q, c]) for i in range(normals.shape[0])), ZERO)
                if not is_zero(nn - ONE):
                    bad_n.append((q, c))
                if not is_zero(P(dV[q, c]) * P(dV[q, c]) - sum((P(dA[i, q, c]) ** 2 for i in range(dA.shape[0])), ZERO)):
                    bad_n.append(("dV", q, c))
                for t in tangents:
                    tt = sum((P(t[i, q, c]) ** 2 for i in range(t.shape[0])), ZERO)
                    td = sum((P(t[i, q, c]) * P(dA[i, q, c]) for i in range(min(t.shape[0], dA.shape[0]))), ZERO)
                    if not is_zero(tt - ONE) or not is_zero(td):
                        bad_t.append((q, c))
        col.add("C13.O3", "_init_faces %s orientation" % cell_type, "dA is orthogonal to the facet and dA . dX/dxi_last == -det(dXdr) w: outward at the facet xi_last = -1 of a positively oriented cell", not bad_o, "%s: %s" % (w, bad_o[:4]))
        col.add("C13.O3", "_init_faces %s normals" % cell_type, "normals are unit vectors dA / |dA| and dV == |dA|", not bad_n, "%s: %s [world: %s]" % (w, bad_n[:4], world))
        col.add("C13.O3", "_init_faces %s tangents" % cell_type, "tangents are unit vectors orthogonal to the area vector", not bad_t and len(tangents) == (2 if (dim == 3 or e3) else 1), "%s: %s" % (w, bad_t[:4]))
        if e3:
            col.add("C13.O3", "_init_faces %s ensure_3d" % cell_type, "ensure_3d pads area vectors and normals with a zero third component", dA.shape[0] == 3 and normals.shape[0] == 3 and not P(dA[2, 0, 0]).t)
    finish_info(col, it)


class ConcreteMesh:
    def __init__(self, points, cells, cell_type):
        self.points = points
        self.cells = np.array(cells, dtype=int)
        self.cell_type = cell_type
        self.dim = points.shape[1]
        self.npoints = points.shape[0]
        self.ncells = self.cells.shape[0]

    def copy(self):
        return ConcreteMesh(self.points, self.cells.copy(), self.cell_type)

    def update(self, points=None, cells=None, cell_type=None):
        if points is not None:
            self.points = points
            self.npoints = points.shape[0]
        if cells is not None:
            self.cells = np.array(cells, dtype=int)
            self.ncells = self.cells.shape[0]
        if cell_type is not None:
            self.cell_type = cell_type


def two_cell_mesh(pts_ref, dim):
    """two reference cells glued along the facet r = +1 / r = -1, then distorted by an (orientation preserving) quadratic map"""
    F = Fraction
    coords = {}
    cells = []
    for shift in (0, 2):
        cell = []
        for p in pts_ref:
            key = tuple([p[0] + shift] + list(p[1:]))
            if key not in coords:
                coords[key] = len(coords)
            cell.append(coords[key])
        cells.append(cell)
    pts = sorted(coords, key=lambda k: coords[k])

    def warp(x):
        x = list(x)
        y = list(x)
        y[0] = x[0] + F(1, 7) * x[1] + F(1, 11) * x[0] * x[1]
        y[1] = x[1] + F(1, 9) * x[0] - F(1, 13) * (x[0] * x[0] if dim == 2 else x[2])
        if dim == 3:
            y[2] = x[2] + F(1, 10) * x[0] * x[1] + F(1, 12) * x[1]
            # genuinely curved faces for the quadratic cells: curvature in both face directions, in every coordinate
            y[0] = y[0] + F(1, 17) * x[1] * x[1] + F(1, 19) * x[2] * x[2] + F(1, 29) * x[1] * x[1] * x[2] + F(1, 37) * x[1] * x[2] * x[2]
            y[1] = y[1] + F(1, 23) * x[0] * x[0] - F(1, 31) * x[2] * x[2] + F(1, 41) * x[0] * x[0] * x[2] + F(1, 43) * x[0] * x[2] * x[2]
            y[2] = y[2] + F(1, 21) * x[0] * x[0] + F(1, 27) * x[1] * x[1] + F(1, 47) * x[0] * x[0] * x[1] + F(1, 53) * x[0] * x[1] * x[1]
        return y

    P_ = npmodel.array([warp(p) for p in pts], dtype=npmodel.DType("float"))
    return P_, cells


def run_selection(col, cell_type, elname, nnodes):
    it = new_interp()
    el_cls = it.get(elname)
    el = it.call(el_cls, [], {})
    pref = [[p.const_value() for p in row] for row in npmodel.to_obj(it.getattr(el, "points"))]
    dim = len(pref[0])
    points, cells = two_cell_mesh(pref, dim)
    mesh = ConcreteMesh(points, cells, cell_type)
    order = 1 if nnodes in (4, 8) and cell_type in ("quad", "hexahedron") else 2
    GLB = it.get("felupe.quadrature._gauss_legendre:GaussLegendreBoundary")
    GL = it.get("felupe.quadrature._gauss_legendre:GaussLegendre")
    cls = it.get("felupe.region._boundary:RegionBoundary")
    tab = it.get("felupe.region._boundary:boundary_cells_%s" % cell_type)
    allcells, allfaces = it.call(tab, [mesh], {})
    allfaces = npmodel.to_int_array(np.asarray(allfaces)).reshape(-1, np.asarray(allfaces).shape[-1])
    keys = [tuple(sorted(f.tolist())) for f in allfaces]
    w = method_where(cls, "__init__")
    npts = points.shape[0]
    masks = [None, np.array([i % 3 != 0 for i in range(npts)]), np.array([P(points[i, 0]) < 1 for i in range(npts)])]
    # the same point sets given as point ids (an index array / a list in any order, ids from the end): the other spelling numpy indexing accepts
    # and the test-suite uses (mask=[0, 3])
    ids1 = [i for i in range(npts) if i % 3 != 0]
    ids2 = [i for i in range(npts) if P(points[i, 0]) < 1]
    id_masks = [(np.array(ids1), ids1), (list(reversed(ids2)), ids2), ([i - npts for i in ids1], ids1)]
    for only_surface in (True, False):
        for mi, mask in enumerate(masks):
            def chk(only_surface=only_surface, mask=mask):
                quad = it.call(GLB, [], dict(order=order, dim=dim))
                reg = it.call(cls, [mesh.copy(), el, quad], dict(grad=False, only_surface=only_surface, mask=mask))
                got = npmodel.to_int_array(np.asarray(it.getattr(it.getattr(reg, "mesh"), "cells_faces")))
                gotk = sorted(tuple(sorted(f.tolist())) for f in got)
                want = []
                for i, k in enumerate(keys):
                    if only_surface and keys.count(k) != 1:
                        continue
                    if mask is not None and not all(bool(mask[p]) for p in allfaces[i]):
                        continue
                    want.append(k)
                return gotk == sorted(want), "%s: selected %d faces, expected %d" % (w, len(gotk), len(want))
            col.check("C13.O4", "%s only_surface=%s mask=%d" % (cell_type, only_surface, mi),
                      "surface = faces whose node set occurs exactly once; a point mask keeps exactly the faces all of whose points satisfy it", chk)

    for only_surface in (True, False):
        for mi, (idmask, idset) in enumerate(id_masks):
            def chk_ids(only_surface=only_surface, idmask=idmask, idset=idset):
                quad = it.call(GLB, [], dict(order=order, dim=dim))
                reg = it.call(cls, [mesh.copy(), el, quad], dict(grad=False, only_surface=only_surface, mask=idmask))
                got = npmodel.to_int_array(np.asarray(it.getattr(it.getattr(reg, "mesh"), "cells_faces")))
                gotk = sorted(tuple(sorted(f.tolist())) for f in got)
                want = []
                for i, k in enumerate(keys):
                    if only_surface and keys.count(k) != 1:
                        continue
                    if not all(int(p) in idset for p in allfaces[i]):
                        continue
                    want.append(k)
                return gotk == sorted(want), "%s: selected %d faces, expected %d" % (w, len(gotk), len(want))
            col.check("C13.O4", "%s only_surface=%s mask given as point ids (%d)" % (cell_type, only_surface, mi),
                      "a mask given as an array or list of point ids keeps exactly the faces all of whose points are listed", chk_ids)

    # the selection is a property of the faces' point *sets*: it must not depend on how the points are numbered.  For every pair of
    # distinct faces that share points, the points are renumbered such that the shared points receive the smallest (resp. the largest)
    # ids -- the adversarial numberings for any face key that is not an injective function of the whole point set.
    fsets = []
    for k in keys:
        if k not in fsets:
            fsets.append(k)
    pairs = [(a, b) for i, a in enumerate(fsets) for b in fsets[i + 1:] if set(a) & set(b)]
    if os.environ.get("FVERIF_TIER") != "thorough":
        pairs = pairs[::3]
    relab = []
    for a, b in pairs:
        shared = sorted(set(a) & set(b))
        rest = [p for p in range(npts) if p not in shared]
        for variant in ("low", "high"):
            order_ = shared + rest if variant == "low" else rest + shared
            new_id = np.empty(npts, dtype=int)
            new_id[order_] = np.arange(npts)
            relab.append((variant, new_id))

    def chk_relabel():
        bad = []
        quad = it.call(GLB, [], dict(order=order, dim=dim))
        for variant, new_id in relab:
            inv = np.argsort(new_id)
            m2 = ConcreteMesh(points[inv], new_id[np.array(cells)], cell_type)
            reg = it.call(cls, [m2, el, quad], dict(grad=False, only_surface=True, mask=None))
            got = npmodel.to_int_array(np.asarray(it.getattr(it.getattr(reg, "mesh"), "cells_faces")))
            gotk = sorted(tuple(sorted(inv[f].tolist())) for f in got)
            want = sorted(k for k in keys if keys.count(k) == 1)
            if gotk != want:
                bad.append((variant, len(gotk), len(want)))
        return not bad, "%s: %d of %d renumberings select a different face set, e.g. %s" % (w, len(bad), len(relab), bad[:2])
    col.check("C13.O4", "%s surface faces independent of the point numbering (%d renumberings)" % (cell_type, len(relab)),
              "for every renumbering of the points the selected surface is the same set of faces (faces sharing points get the smallest / largest ids)", chk_relabel)

    # closure and flux on this (distorted, exact rational) mesh
    TEMPLATE = {"quad": "RegionQuadBoundary", "quad8": "RegionQuadraticQuadBoundary", "quad9": "RegionBiQuadraticQuadBoundary", "hexahedron": "RegionHexahedronBoundary",
                "hexahedron20": "RegionQuadraticHexahedronBoundary", "hexahedron27": "RegionTriQuadraticHexahedronBoundary"}[cell_type]

    def chk_closure():
        # the boundary region *template* of this cell type with its own element and default quadrature (the rule has to integrate the
        # flux of the position vector over curved faces exactly)
        reg = it.call(it.get("felupe.region._templates:" + TEMPLATE), [mesh.copy()], dict(grad=True, only_surface=True))
        dA = it.getattr(reg, "dA")
        tot = [npmodel.np_sum(dA[i]) for i in range(dim)]
        bad = [i for i in range(dim) if abs(P(tot[i]).const_value()) > Fraction(1, 10 ** 40)]
        # flux of the position vector: sum x . dA == dim * volume
        hB = it.getattr(reg, "h")
        cellsB = it.getattr(it.getattr(reg, "mesh"), "cells")
        pts = npmodel.to_obj(points)
        flux = ZERO
        nq = dA.shape[1]
        for c in range(cellsB.shape[0]):
            for q in range(nq):
                x = [sum((pts[cellsB[c, a], i] * hB[a, q, 0] for a in range(cellsB.shape[1])), ZERO) for i in range(dim)]
                flux = flux + sum((x[i] * P(dA[i, q, c]) for i in range(dim)), ZERO)
        Reg = it.get("felupe.region._region:Region")
        regv = it.call(Reg, [mesh.copy(), el, it.call(GL, [], dict(order=order, dim=dim))], {})
        vol = npmodel.np_sum(it.getattr(regv, "dV"))
        fl = P(flux).const_value()
        vv = P(vol).const_value()
        okf = abs(fl - dim * vv) < Fraction(1, 10 ** 40)
        return not bad and okf and vv > 0, "sum dA = %s; flux %s vs dim*volume %s" % ([float(P(t).const_value()) for t in tot], float(fl), float(dim * vv))
    def chk_recompute():
        # the face data of a surface region are derived data like dhdX / dV of a volume region: every way of re-evaluating the region
        # (reload(), copy(), astype()) leaves a region whose dA, dV (= |dA|), normals and tangents are those of a freshly built region
        reg = it.call(it.get("felupe.region._templates:" + TEMPLATE), [mesh.copy()], dict(only_surface=True))
        names = ("dA", "dV", "normals")

        def snap(r):
            out = {nm: npmodel.to_obj(np.asarray(it.getattr(r, nm))).copy() for nm in names}
            out["tangents"] = [npmodel.to_obj(np.asarray(t)).copy() for t in it.getattr(r, "tangents")]
            return out

        def same(a, b):
            return a.shape == b.shape and all(abs(ring.const_decimal(P(x) - P(y))) < ring._SEP for x, y in zip(a.reshape(-1), b.reshape(-1)))

        ref = snap(reg)
        bad = []
        for how in ("copy()", "astype(float64)", "reload()"):
            if how == "copy()":
                r2 = it.call_method(reg, "copy", [], {})
            elif how == "astype(float64)":
                r2 = it.call_method(reg, "astype", [it.getattr(it.externals["numpy"], "float64")], {})
            else:
                it.call_method(reg, "reload", [], {})
                r2 = reg
            got = snap(r2)
            for nm in names:
                if not same(got[nm], ref[nm]):
                    bad.append("%s: %s" % (how, nm))
            if len(got["tangents"]) != len(ref["tangents"]) or any(not same(a, b) for a, b in zip(got["tangents"], ref["tangents"])):
                bad.append("%s: tangents" % how)
        return not bad, "region/_boundary.py RegionBoundary (inherits Region.reload / copy / astype): differs from the freshly built region in %s" % bad
    def chk_callback():
        # the documented way to move a mesh under an existing region: mesh.update(points=..., callback=region.reload) -- the callback receives
        # the (volume) mesh.  The surface region then has to describe the surface of the moved mesh
        vm = mesh.copy()
        reg = it.call(it.get("felupe.region._templates:" + TEMPLATE), [vm], dict(only_surface=True))
        moved = npmodel.to_obj(points).copy()
        moved[:, 0] = moved[:, 0] * 2
        vm.update(points=moved)
        it.call_method(reg, "reload", [vm], {})
        fresh = it.call(it.get("felupe.region._templates:" + TEMPLATE), [ConcreteMesh(moved, cells, cell_type)], dict(only_surface=True))
        bad = []
        for nm in ("dA", "dV", "normals"):
            a, b = npmodel.to_obj(np.asarray(it.getattr(reg, nm))), npmodel.to_obj(np.asarray(it.getattr(fresh, nm)))
            if a.shape != b.shape or any(abs(ring.const_decimal(P(x) - P(y))) > ring._SEP for x, y in zip(a.reshape(-1), b.reshape(-1))):
                bad.append(nm)
        return not bad, "region/_boundary.py RegionBoundary.reload(mesh): %s are not those of the surface of the moved mesh (the region's boundary cells are replaced by the cells of the mesh handed in)" % bad
    col.check("C13.O6", "%s:mesh-update-callback" % TEMPLATE,
              "after mesh.update(points=..., callback=region.reload) the area vectors, their norms and the normals are those of a surface region built on the moved mesh", chk_callback)
    col.check("C13.O6", "%s surface region re-evaluated (%s)" % (cell_type, TEMPLATE),
              "after copy(), astype() or reload() the area vectors, their norms dV, the unit normals and the tangents are those of a freshly built surface region of the same mesh", chk_recompute)
    col.check("C13.O5", "%s closure on a distorted two-cell mesh (%s, default rule)" % (cell_type, TEMPLATE),
              "area vectors sum to zero and the flux of the position vector equals dim * volume (exact rational coordinates; Gauss points to 70 digits)", chk_closure)
    finish_info(col, it)
