#!/usr/bin/env python3
"""run the tasks of one property whose id contains a substring, in-process, with timings (debug aid)
usage: python3-vt tools/runtask.py c03 kinematics [tier]"""
import sys, time, importlib, os
sys.path.insert(0, os.path.dirname(os.path.dirname(os.path.abspath(__file__))))
sys.modules['felupe'] = None
from fverif import runner
mod = importlib.import_module('fverif.props.' + sys.argv[1])
want = sys.argv[2]
tier = sys.argv[3] if len(sys.argv) > 3 else 'quick'
for tid, fn, kw in mod.tasks(tier):
    if want in tid:
        t = time.time()
        r = runner._run_task(('fverif.props.' + sys.argv[1], fn, kw, tid))
        st = {}
        for o in r['obs']:
            st[o['status']] = st.get(o['status'], 0) + 1
        print(tid, st, '%.1fs' % (time.time() - t))
        for o in r['obs']:
            if o['status'] != 'ok':
                print('   ', o['status'], o['oid'], o['construct'], o['detail'][:600])
