import numpy as np


class BadTriangle:
    "3-point degree-2 triangle rule with one perturbed literal (seventh digit)"

    def __init__(self):
        a = 0.1666667
        b = 0.6666677
        self.points = np.array([[a, a], [b, a], [a, b]])
        self.weights = np.ones(3) / 6
