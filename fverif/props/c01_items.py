"""C01 -- load and constraint items on the symbolic micro-instance"""

import ast
import os

import numpy as np

from .. import ring, npmodel, micro
from ..ring import P, sym, diff, is_zero, ZERO, ONE
from ..common import new_interp, symarray, finish_info, method_where
from ..interp import InterpRaise
from .c02 import regions, diff_dense


def _setup(it, kind, mixed=0, nq=2):
    from .c01 import setup_fields
    return setup_fields(it, kind, mixed, nq=nq)


def _deriv(col, *a, **k):
    from .c01 import derivative_obligations
    derivative_obligations(col, *a, **k)


def run_loads(col):
    it = new_interp()
    for mixed in (0, 1):
        fc, unknowns, (ra, rb), d, tdim = _setup(it, "Field2", mixed=mixed)
        n = len(unknowns)
        tag = "mixed" if mixed else "single field"
        # --- SolidBodyForce / SolidBodyGravity
        for cname, mod, kw in (("SolidBodyForce", "_solidbody_force", dict(values=[sym("b0"), sym("b1")], scale=sym("rho", True))),
                               ("SolidBodyGravity", "_solidbody_gravity", dict(gravity=[sym("g0"), sym("g1")], density=sym("rho", True)))):
            cls = it.get("felupe.mechanics.%s:%s" % (mod, cname))
            item = it.call(cls, [fc], kw)
            asm = it.getattr(item, "assemble")
            r = micro.dense(it.call(it.getattr(asm, "vector"), [fc], {}))
            K = micro.dense(it.call(it.getattr(asm, "matrix"), [fc], {}))
            dep = [I for I in range(r.shape[0]) if any(diff(P(r[I, 0]), x).t for x in unknowns)]
            col.add("C01.O6", "%s vector (%s)" % (cname, tag), "the load vector does not depend on the field unknowns and has one row per global unknown",
                    not dep and r.shape == (n, 1), "%s: rows depending on unknowns %s, shape %s" % (method_where(cls, "_vector"), dep, r.shape))
            col.add("C01.O6", "%s matrix (%s)" % (cname, tag), "the load matrix is zero with shape (n, n)", K.shape == (n, n) and all(not P(x).t for x in K.reshape(-1)),
                    "%s: shape %s" % (method_where(cls, "_matrix"), K.shape))
            col.add("C01.O8", "%s multiplier" % cname, "external load items carry the multiplier -1 (applied by the solver)", P(it.getattr(asm, "multiplier")) == -1)
        # --- PointLoad
        cls = it.get("felupe.mechanics._pointload:PointLoad")
        for axi in (False, True):
            item = it.call(cls, [fc, [2, 0]], dict(values=[[sym("f0"), sym("f1")], [sym("g0"), sym("g1")]], axisymmetric=axi))
            asm = it.getattr(item, "assemble")
            r = micro.dense(it.call(it.getattr(asm, "vector"), [fc], {}))
            K = micro.dense(it.call(it.getattr(asm, "matrix"), [fc], {}))
            dep = [I for I in range(r.shape[0]) if any(diff(P(r[I, 0]), x).t for x in unknowns)]
            col.add("C01.O6", "PointLoad vector (%s, axisymmetric=%s)" % (tag, axi), "point load vector independent of the unknowns, one row per global unknown",
                    not dep and r.shape == (n, 1), "rows %s shape %s" % (dep, r.shape))
            col.add("C01.O6", "PointLoad matrix (%s, axisymmetric=%s)" % (tag, axi), "zero matrix (n, n)", K.shape == (n, n) and all(not P(x).t for x in K.reshape(-1)))
    finish_info(col, it)


def run_multipoint(col):
    it = new_interp()
    fc, unknowns, (ra, rb), d, tdim = _setup(it, "Field2")
    k = sym("kpen", True)
    cls = it.get("felupe.mechanics._multipoint:MultiPointConstraint")
    for skip in ((False, False), (True, False)):
        item = it.call(cls, [fc], dict(points=[0, 1], centerpoint=3, skip=skip + (False,), multiplier=k))
        asm = it.getattr(item, "assemble")
        r = it.call(it.getattr(asm, "vector"), [fc], {})
        K = it.call(it.getattr(asm, "matrix"), [fc], {})
        _deriv(col, "C01.O7", "MultiPointConstraint skip=%s" % (skip,), method_where(cls, "_matrix"), r, K, unknowns)
        rd = micro.dense(r)
        # self-equilibrated: forces sum to zero per component
        bad = [i for i in range(d) if not is_zero(sum((P(rd[d * n_ + i, 0]) for n_ in range(ra.mesh.npoints)), ZERO))]
        col.add("C01.O7", "MultiPointConstraint skip=%s equilibrium" % (skip,), "constraint forces are self-equilibrated (sum over points vanishes per component)", not bad, str(bad))
    # the centre point is itself one of the coupled points (e.g. all points of a face with one of them as master)
    item = it.call(cls, [fc], dict(points=[0, 1, 3], centerpoint=3, skip=(False, False, False), multiplier=k))
    asm = it.getattr(item, "assemble")
    r = it.call(it.getattr(asm, "vector"), [fc], {})
    K = it.call(it.getattr(asm, "matrix"), [fc], {})
    _deriv(col, "C01.O7", "MultiPointConstraint centre point among the points", method_where(cls, "_matrix"), r, K, unknowns)
    rd = micro.dense(r)
    bad = [i for i in range(d) if not is_zero(sum((P(rd[d * n_ + i, 0]) for n_ in range(ra.mesh.npoints)), ZERO))]
    col.add("C01.O7", "MultiPointConstraint centre point among the points equilibrium", "constraint forces are self-equilibrated also when the centre point is one of the coupled points", not bad,
            "%s: unbalanced components %s" % (method_where(cls, "_vector"), bad))
    # other spellings of the same point set: ids counted from the end (the centre as -1, as in the documented PointLoad(points=[-1]) idiom), a
    # (indices only: the documented type of `points`); same obligations, and the same force / stiffness as the plain spelling
    npts_ = ra.mesh.npoints
    item0 = it.call(cls, [fc], dict(points=[0, 1], centerpoint=npts_ - 1, skip=(False, False, False), multiplier=k))
    r0 = micro.dense(it.call(it.getattr(it.getattr(item0, "assemble"), "vector"), [fc], {}))
    K0 = micro.dense(it.call(it.getattr(it.getattr(item0, "assemble"), "matrix"), [fc], {}))
    for what, pts_, ctr in (("negative ids", [0, 1, -1], npts_ - 1), ("negative ids, negative centre", [0, 1 - npts_, -1], -1),
                            ("a point listed twice", [0, 1, 0], npts_ - 1), ("a point listed twice, once from the end", [0, 1, -npts_], npts_ - 1)):
        def chk_sp(pts_=pts_, ctr=ctr):
            item = it.call(cls, [fc], dict(points=pts_, centerpoint=ctr, skip=(False, False, False), multiplier=k))
            r_ = micro.dense(it.call(it.getattr(it.getattr(item, "assemble"), "vector"), [fc], {}))
            K_ = micro.dense(it.call(it.getattr(it.getattr(item, "assemble"), "matrix"), [fc], {}))
            badr = [i for i in range(r0.shape[0]) if not is_zero(P(r_[i, 0]) - P(r0[i, 0]))]
            badK = [(i, j) for i in range(K0.shape[0]) for j in range(K0.shape[1]) if not is_zero(P(K_[i, j]) - P(K0[i, j]))]
            return not badr and not badK, "%s: force rows %s, stiffness entries %s differ from the item given as points=[0, 1], centerpoint=%d" % (
                method_where(cls, "__init__"), badr[:4], badK[:4], npts_ - 1)
        col.check("C01.O7", "MultiPointConstraint centre point among the points (%s)" % what,
                  "the same set of points, however its ids are spelled (counted from the start or from the end), gives the same constraint force and its derivative", chk_sp)
    cls = it.get("felupe.mechanics._multipoint:MultiPointContact")
    # contact with the centre point listed among the points, all other gaps closed: forces still balance
    def oracle_c(a, b, op):
        if not (b.is_const() and b.const_value() == 0):
            return None
        deformed = any(ring.G.info[g]["kind"] == "sym" and ring.G.info[g]["name"].startswith("U[") for g in ring.all_syms(a))
        positive = not deformed
        return {">": positive, "<": not positive, ">=": positive, "<=": not positive}[op]
    ring.ORDER_ORACLE[0] = oracle_c
    try:
        item = it.call(cls, [fc], dict(points=[0, 1, 3], centerpoint=3, skip=(True, False, False), multiplier=k))
        asm = it.getattr(item, "assemble")
        r = it.call(it.getattr(asm, "vector"), [fc], {})
        K = it.call(it.getattr(asm, "matrix"), [fc], {})
    finally:
        ring.ORDER_ORACLE[0] = None
    _deriv(col, "C01.O7", "MultiPointContact centre point among the points (closed)", method_where(cls, "_matrix"), r, K, unknowns)
    rd = micro.dense(r)
    bad = [i for i in range(d) if not is_zero(sum((P(rd[d * n_ + i, 0]) for n_ in range(ra.mesh.npoints)), ZERO))]
    col.add("C01.O7", "MultiPointContact centre point among the points equilibrium", "contact forces are self-equilibrated also when the centre point is one of the listed points",
            not bad and any(P(x).t for x in rd.reshape(-1)), "%s: unbalanced components %s" % (method_where(cls, "_vector"), bad))
    # a wall that initially touches the body: the initial gap of point 0 vanishes identically on the monitored axis
    Xsave = ra.mesh.points[0, 1]
    for case in ("closed", "open"):
        ra.mesh.points[0, 1] = ra.mesh.points[3, 1]

        def oracle0(a, b, op, case=case):
            if not (b.is_const() and b.const_value() == 0):
                return None
            positive = case == "open"
            return {">": positive, "<": not positive, ">=": positive, "<=": not positive}[op]
        ring.ORDER_ORACLE[0] = oracle0
        try:
            item = it.call(cls, [fc], dict(points=[0], centerpoint=3, skip=(True, False, False), multiplier=k))
            asm = it.getattr(item, "assemble")
            r = it.call(it.getattr(asm, "vector"), [fc], {})
            K = it.call(it.getattr(asm, "matrix"), [fc], {})
        finally:
            ring.ORDER_ORACLE[0] = None
            ra.mesh.points[0, 1] = Xsave
        _deriv(col, "C01.O7", "MultiPointContact zero initial gap (current gap %s)" % ("negative" if case == "closed" else "positive"), method_where(cls, "_matrix"), r, K, unknowns,
               rule="a contact point whose initial gap vanishes: vector and matrix use the same active set, matrix == d vector / d unknowns away from the switching point")
    for case in ("closed", "open"):
        def oracle(a, b, op, case=case):
            if not (b.is_const() and b.const_value() == 0):
                return None
            deformed = any(ring.G.info[g]["kind"] == "sym" and ring.G.info[g]["name"].startswith("U[") for g in ring.all_syms(a))
            positive = True
            if deformed and case == "closed":
                positive = False  # the gap has changed sign: contact is active
            return {">": positive, "<": not positive, ">=": positive, "<=": not positive}[op]
        ring.ORDER_ORACLE[0] = oracle
        try:
            item = it.call(cls, [fc], dict(points=[0, 1], centerpoint=3, skip=(True, False, False), multiplier=k))
            asm = it.getattr(item, "assemble")
            r = it.call(it.getattr(asm, "vector"), [fc], {})
            K = it.call(it.getattr(asm, "matrix"), [fc], {})
        finally:
            ring.ORDER_ORACLE[0] = None
        _deriv(col, "C01.O7", "MultiPointContact (%s)" % case, method_where(cls, "_matrix"), r, K, unknowns,
               rule="away from the switching point (all monitored gaps %s): matrix == d vector / d unknowns" % case)
        if case == "closed":
            # the same point set with one point listed twice (ids concatenated from two selections)
            r0_, K0_ = micro.dense(r), micro.dense(K)
            ring.ORDER_ORACLE[0] = oracle
            try:
                item2 = it.call(cls, [fc], dict(points=[0, 1, 0], centerpoint=3, skip=(True, False, False), multiplier=k))
                r2_ = micro.dense(it.call(it.getattr(it.getattr(item2, "assemble"), "vector"), [fc], {}))
                K2_ = micro.dense(it.call(it.getattr(it.getattr(item2, "assemble"), "matrix"), [fc], {}))
            finally:
                ring.ORDER_ORACLE[0] = None
            badr = [i for i in range(r0_.shape[0]) if not is_zero(P(r2_[i, 0]) - P(r0_[i, 0]))]
            badK = [(i, j) for i in range(K0_.shape[0]) for j in range(K0_.shape[1]) if not is_zero(P(K2_[i, j]) - P(K0_[i, j]))]
            col.add("C01.O7", "MultiPointContact (closed) a point listed twice", "the same set of points, however its ids are listed, gives the same contact force and its derivative",
                    not badr and not badK, "%s: force rows %s, stiffness entries %s differ from the item given as points=[0, 1]" % (method_where(cls, "__init__"), badr[:4], badK[:4]))
        if case == "open":
            col.add("C01.O7", "MultiPointContact (open) inactive", "no contact -> zero force and zero stiffness",
                    all(not P(x).t for x in micro.dense(r).reshape(-1)) and all(not P(x).t for x in micro.dense(K).reshape(-1)))
        else:
            col.add("C01.O7", "MultiPointContact (closed) active", "active contact -> non-zero penalty force", any(P(x).t for x in micro.dense(r).reshape(-1)))
    finish_info(col, it)


def run_surface(col):
    it = new_interp()
    # one quadrature point per face: the cofactor / determinant polynomials of a 3x3 F in 12 unknowns are large
    fc, unknowns, (ra, rb), d, tdim = _setup(it, "Field3", nq=1)
    ra.normals = symarray("N", (3, 1, 2))
    p = sym("pressure")
    cls = it.get("felupe.mechanics._solidbody_pressure:SolidBodyPressure")
    item = it.call(cls, [fc], dict(pressure=p))
    asm = it.getattr(item, "assemble")
    r = it.call(it.getattr(asm, "vector"), [fc], {})
    K = it.call(it.getattr(asm, "matrix"), [fc], {})
    _deriv(col, "C01.O4", "SolidBodyPressure", method_where(cls, "_matrix"), r, K, unknowns, symmetric=False)
    col.add("C01.O8", "SolidBodyPressure multiplier", "follower pressure carries the multiplier -1", P(it.getattr(asm, "multiplier")) == -1)
    # a second assembly with the same state gives the same result (pressure factor applied once per evaluation)
    r2 = it.call(it.getattr(asm, "vector"), [fc], {})
    bad = diff_dense(r, r2)
    col.add("C01.O4", "SolidBodyPressure repeated assembly", "the pressure factor is applied exactly once per evaluation", not bad, "; ".join(bad))
    cls = it.get("felupe.mechanics._solidbody_cauchy_stress:SolidBodyCauchyStress")
    sig = symarray("sig", (3, 3))
    item = it.call(cls, [fc], dict(cauchy_stress=sig))
    asm = it.getattr(item, "assemble")
    r = it.call(it.getattr(asm, "vector"), [fc], {})
    K = it.call(it.getattr(asm, "matrix"), [fc], {})
    _deriv(col, "C01.O5", "SolidBodyCauchyStress", method_where(cls, "_matrix"), r, K, unknowns, symmetric=False)
    finish_info(col, it)


def run_surface_2d(col, kind):
    """follower loads on plane-strain and axisymmetric fields (hoop coupling F33 = 1 + u_r/R of the load stiffness): the boundary
    region supplies in-plane normals padded with a zero third component (RegionBoundary ensure_3d)"""
    it = new_interp()
    fc, unknowns, (ra, rb), d, tdim = _setup(it, kind, nq=1)
    nrm = np.empty((3, 1, 2), dtype=object)
    N2 = symarray("N", (2, 1, 2))
    nrm[:2] = N2
    nrm[2] = ring.ZERO
    ra.normals = nrm
    p = sym("pressure")
    cls = it.get("felupe.mechanics._solidbody_pressure:SolidBodyPressure")
    item = it.call(cls, [fc], dict(pressure=p))
    asm = it.getattr(item, "assemble")
    r = it.call(it.getattr(asm, "vector"), [fc], {})
    K = it.call(it.getattr(asm, "matrix"), [fc], {})
    _deriv(col, "C01.O4", "SolidBodyPressure[%s]" % kind, method_where(cls, "_matrix"), r, K, unknowns, symmetric=False)
    cls = it.get("felupe.mechanics._solidbody_cauchy_stress:SolidBodyCauchyStress")
    sig = symarray("sig", (3, 3))
    item = it.call(cls, [fc], dict(cauchy_stress=sig))
    asm = it.getattr(item, "assemble")
    r = it.call(it.getattr(asm, "vector"), [fc], {})
    K = it.call(it.getattr(asm, "matrix"), [fc], {})
    _deriv(col, "C01.O5", "SolidBodyCauchyStress[%s]" % kind, method_where(cls, "_matrix"), r, K, unknowns, symmetric=False)
    finish_info(col, it)


def run_multiplier(col):
    """O8: tools._newton.fun_items / jac_items and FreeVibration.evaluate apply assemble.multiplier to vector and matrix alike"""
    it = new_interp()

    class Item:
        def __init__(self, mult, tag, n):
            self.results = type("R", (), {})()
            self.field = None
            a = type("A", (), {})()
            a.multiplier = mult
            # like the library's items: the assembled vector / matrix is stored on the item's results and that very object is returned
            def vec(field=None, parallel=False, **kw):
                self.results.force = npmodel.AbstractSparse(symarray("r" + tag, (n, 1)))
                return self.results.force

            def mat(field=None, parallel=False, **kw):
                self.results.stiffness = npmodel.AbstractSparse(symarray("K" + tag, (n, n)))
                return self.results.stiffness

            a.vector = vec
            a.matrix = mat
            self.assemble = a

    fc, unknowns, (ra, rb), d, tdim = _setup(it, "Field2")
    n = len(unknowns)
    m1 = sym("m1")
    items = [Item(None, "a", n), Item(m1, "b", n), Item(0, "c", n)]  # no multiplier, a symbolic one, and an item switched off by a zero multiplier
    for i_ in items:
        i_.field = fc
    fun_items = it.get("felupe.tools._newton:fun_items")
    jac_items = it.get("felupe.tools._newton:jac_items")
    f = it.call(fun_items, [items, fc], {})
    K = it.call(jac_items, [items, fc], {})
    f = micro.dense(f).reshape(-1)
    K = micro.dense(K)
    ra_, rb_ = symarray("ra", (n, 1)), symarray("rb", (n, 1))
    Ka, Kb = symarray("Ka", (n, n)), symarray("Kb", (n, n))
    okf = all(is_zero(P(f[I]) - (ra_[I, 0] + m1 * rb_[I, 0])) for I in range(n))
    okK = all(is_zero(P(K[I, J]) - (Ka[I, J] + m1 * Kb[I, J])) for I in range(n) for J in range(n))
    col.add("C01.O8", "tools._newton.fun_items", "vector sum: items without multiplier enter with factor 1, others multiplied by their multiplier (a zero multiplier switches the item off)", okf,
            method_where(it.get("felupe.tools._newton:fun_items").cls, "x") if False else "tools/_newton.py fun_items")
    col.add("C01.O8", "tools._newton.jac_items", "matrix sum uses the same multiplier as the vector sum (also when it is zero)", okK, "tools/_newton.py jac_items")
    # what the items themselves report afterwards (item.results.force is what CharacteristicCurve(items=...) sums, reaction-force plots read
    # it): the contribution that entered the global sum, i.e. including the item's multiplier
    fb = micro.dense(items[1].results.force).reshape(-1)
    fcz = micro.dense(items[2].results.force).reshape(-1)
    okr = all(is_zero(P(fb[I]) - m1 * rb_[I, 0]) for I in range(n)) and all(is_zero(P(v)) for v in fcz)
    col.add("C01.O8", "item.results.force after fun_items", "the force an item reports after the global residual was evaluated is its contribution to that residual (multiplier applied)", okr,
            "tools/_newton.py fun_items: item.results.force is %s, its contribution to the residual is %s" % (ring.fmt(P(fb[0]), 3), ring.fmt(m1 * rb_[0, 0], 3)))
    # the library's own item that takes a user multiplier: SolidBody(multiplier=m) next to a twin without one (same material, same field).
    # Its contribution to the global residual and tangent is m times the twin's -- once, wherever the code applies the factor.
    from .c03 import OpaqueHyper
    umat = OpaqueHyper("Wm", dim=tdim)
    SB = it.get("felupe.mechanics._solidbody:SolidBody")
    twin = it.call(SB, [], dict(umat=umat, field=fc))
    body = it.call(SB, [], dict(umat=umat, field=fc, multiplier=m1))
    f0 = micro.dense(it.call(fun_items, [[twin], fc], {})).reshape(-1).copy()
    K0 = micro.dense(it.call(jac_items, [[twin], fc], {})).copy()
    for rep in (1, 2):  # twice: a factor applied in place to a re-used result buffer would accumulate
        fm = micro.dense(it.call(fun_items, [[body], fc], {})).reshape(-1)
        Km = micro.dense(it.call(jac_items, [[body], fc], {}))
        okf = all(is_zero(P(fm[I]) - m1 * P(f0[I])) for I in range(n)) and any(P(v).t for v in f0)
        okK = all(is_zero(P(Km[I, J]) - m1 * P(K0[I, J])) for I in range(n) for J in range(n)) and any(P(v).t for v in K0.reshape(-1))
        col.add("C01.O8", "SolidBody(multiplier=m) in fun_items, evaluation %d" % rep, "its contribution to the global residual is m times that of the same body without multiplier (the factor enters exactly once)", okf,
                "%s: got %s for twin entry %s" % (method_where(SB, "_vector"), ring.fmt(P(fm[0]), 3), ring.fmt(P(f0[0]), 3)))
        col.add("C01.O8", "SolidBody(multiplier=m) in jac_items, evaluation %d" % rep, "its contribution to the global tangent is m times that of the same body without multiplier (the factor enters exactly once)", okK,
                "%s: got %s for twin entry %s" % (method_where(SB, "_matrix"), ring.fmt(P(Km[0, 0]), 3), ring.fmt(P(K0[0, 0]), 3)))
    finish_info(col, it)


def run_formitem(col):
    """FormItem only forwards user-supplied forms: the same field and the same kwargs go into both"""
    it = new_interp()
    calls = []

    class Form:
        def __init__(self, tag):
            self.tag = tag
            self.form = type("F", (), {})()
            self.form.v = type("V", (), {})()
            self.form.v.field = "FIELD0"

        def assemble(self, **kw):
            calls.append((self.tag, kw))
            return "RESULT-" + self.tag

    cls = it.get("felupe.mechanics._item:FormItem")
    kw = {"a": sym("a")}
    item = it.call(cls, [], dict(bilinearform=Form("B"), linearform=Form("L"), sym=True, kwargs=kw))
    asm = it.getattr(item, "assemble")
    r = it.call(it.getattr(asm, "vector"), ["FIELD1"], {})
    K = it.call(it.getattr(asm, "matrix"), ["FIELD1"], {})
    okk = r == "RESULT-L" and K == "RESULT-B" and calls[0][1].get("v") == "FIELD1" and calls[1][1].get("v") == "FIELD1" and calls[1][1].get("u") == "FIELD1" \
        and calls[0][1].get("kwargs") is kw and calls[1][1].get("kwargs") is kw and calls[1][1].get("sym") is True
    col.add("C01.O1", "FormItem plumbing", "the linear and the bilinear form are assembled on the same field with the same kwargs", okk, str(calls))
    finish_info(col, it)
