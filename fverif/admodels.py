"""Summaries of tensortrax.math / jax.numpy for evaluating the strain-energy model *functions*
(felupe/constitution/{tensortrax,jax}/models/**) from their AST in an abstract 'world':

  diag   C = diag(c1, c2, c3)  (positive symbols; eigvalsh -> the diagonal)         -- isotropic models
  full   C symmetric with 6 symbols (eigvalsh / eigh / expm opaque function atoms)   -- anisotropic / micro-sphere
  ray    C = s * 1                                                                  -- reference-state jets

The backends' idioms (array(x, like=..), from_triu_1d vs fancy index, tsum vs +, try_stack vs
concatenate) are summaries, so that a jax model and its tensortrax namesake evaluate to the same
ring element iff they denote the same function.
"""

from fractions import Fraction

import numpy as np

from . import ring, npmodel
from .ring import P, Poly, ZERO, ONE, Undecided
from .npmodel import ExtModule
from .interp import TypeMarker

WORLD = {"Cref": None, "reg_log": [], "reg_bound": Fraction(1, 10000), "contract_log": []}


def _note_symmetry(M, routine):
    """eigvalsh / eigh (both backends) and tensortrax' eigh-based expm are specified for symmetric arguments only: numpy / tensortrax read
    one triangle, jax symmetrises its input, so for any other argument the result is not the eigen-decomposition (resp. the matrix
    exponential) of that argument and the two backends differ.  The call is logged; the properties that depend on it report it."""
    M = npmodel.to_obj(np.asarray(M))
    n = M.shape[0]
    bad = [(i, j) for i in range(n) for j in range(i) if not ring.is_zero(P(M[i, j]) - P(M[j, i]))]
    if bad:
        WORLD["contract_log"].append((routine, bad))
    return not bad


def _is_diag(M):
    n = M.shape[0]
    return all(not P(M[i, j]).t for i in range(n) for j in range(n) if i != j)


def _strip_regularisation(M):
    """jax-only eigenvalue regularisation: argument = X + diag(const) with |const| <= 1e-4 is logged and
    treated as X; a larger constant shift is left in place (and will show up as a difference)"""
    M = npmodel.to_obj(np.asarray(M))
    n = M.shape[0]
    shift = []
    for i in range(n):
        c = P(M[i, i]).t.get((), Fraction(0))
        shift.append(c)
    # a shift is recognised only if it is not the constant part of a genuinely constant matrix
    if any(shift) and not all(P(M[i, i]).is_const() for i in range(n)):
        small = [c for c in shift if c != 0 and abs(c) <= WORLD["reg_bound"]]
        # heuristics are not allowed to hide anything: strip only constants that are tiny AND whose removal
        # leaves a diagonal entry without constant term
        if small and all(abs(c) <= WORLD["reg_bound"] for c in shift):
            M2 = M.copy()
            for i in range(n):
                M2[i, i] = P(M[i, i]) - shift[i]
            WORLD["reg_log"].append([str(c) for c in shift])
            return M2
    return M


def eigvalsh(M, _routine="eigvalsh"):
    M = npmodel.to_obj(np.asarray(M))
    if M.ndim != 2:
        raise Undecided("eigvalsh on a batch in model evaluation")
    M = _strip_regularisation(M)
    _note_symmetry(M, _routine)
    n = M.shape[0]
    if _is_diag(M):
        # principal-axes world: the eigenvalues are the diagonal entries; numpy returns them in ascending order, which for generic symbols is
        # one of the n! orders -- WORLD["eig_order"] picks it (eigh returns the eigenbases in the same order)
        order = WORLD.get("eig_order") or tuple(range(n))
        out = np.empty(n, dtype=object)
        for i in range(n):
            out[i] = P(M[order[i], order[i]])
        return out
    args = [M[i, j] for i in range(n) for j in range(i, n)]
    out = np.empty(n, dtype=object)
    for i in range(n):
        out[i] = ring.ofun("Eigval%d" % i, args)
    return out


def eigh(M):
    M = npmodel.to_obj(np.asarray(M))
    n = M.shape[0]
    M = _strip_regularisation(M)
    w = eigvalsh(M, _routine="eigh")
    args = [M[i, j] for i in range(n) for j in range(i, n)]
    # tensortrax returns eigenvalues and the eigen-bases M_a = N_a (x) N_a stacked on the first axis
    Mb = np.empty((n, n, n), dtype=object)
    if _is_diag(M):
        order = WORLD.get("eig_order") or tuple(range(n))
        Mb[...] = ZERO
        for a in range(n):
            Mb[a, order[a], order[a]] = ONE
        return w, Mb
    for a in range(n):
        for i in range(n):
            for j in range(n):
                p, q = min(i, j), max(i, j)
                Mb[a, i, j] = ring.ofun("Eigbase%d_%d%d" % (a, p, q), args)
    return w, Mb


def expm_symmetric(M):
    """tensortrax.math.linalg.expm: 'matrix exponential of a symmetric array' (eigh based)"""
    _note_symmetry(M, "tensortrax.math.linalg.expm")
    return expm(M)


def expm(M):
    M = npmodel.to_obj(np.asarray(M))
    n = M.shape[0]
    args = [M[i, j] for i in range(n) for j in range(n)]
    out = np.empty((n, n), dtype=object)
    for i in range(n):
        for j in range(n):
            out[i, j] = ring.ofun("Expm%d%d" % (i, j), args)
    return out


def det(M):
    M = npmodel.to_obj(np.asarray(M))
    known = WORLD.get("det_of")
    if known is not None:
        Mref, val = known
        if Mref.shape == M.shape and all(ring.is_zero(P(a) - P(b)) for a, b in zip(Mref.reshape(-1), M.reshape(-1))):
            return val
    return npmodel.linalg_det(M)


def trace(M, *a, **k):
    M = npmodel.to_obj(np.asarray(M))
    r = ZERO
    for i in range(M.shape[0]):
        r = r + M[i, i]
    return r


def tsum(x, axis=None, **kw):
    if isinstance(x, (list, tuple)):
        if axis is None:
            r = 0
            for v in x:
                if isinstance(v, np.ndarray):
                    v = npmodel.np_sum(v)
                r = r + v
            return r
        x = npmodel.array(x)
    return npmodel.np_sum(x, axis=axis)


def _array(x, like=None, shape=None, **kw):
    if isinstance(x, (Poly, Fraction, int)):
        r = P(x)
        return r
    r = npmodel.asarray(x)
    if r.dtype != object:
        r = npmodel.to_obj(r)
    if shape is not None:
        r = r.reshape(shape)
    if r.ndim == 1 and r.size == 1 and shape is None and like is not None and not isinstance(like, np.ndarray):
        return P(r[0])
    return r


def from_triu_1d(v, like=None):
    v = npmodel.to_obj(np.asarray(v)) if isinstance(v, np.ndarray) else npmodel.array(v)
    idx = np.array([[0, 1, 2], [1, 3, 4], [2, 4, 5]])
    return v[idx]


def triu_1d(A):
    A = npmodel.to_obj(np.asarray(A))
    i, j = np.triu_indices(3)
    return A[i, j]


def try_stack(parts, fallback=None):
    out = []
    for p in parts:
        if isinstance(p, (list, tuple)):
            out.extend(P(v) if not isinstance(v, np.ndarray) else v.reshape(-1)[0] for v in p)
        elif isinstance(p, np.ndarray):
            out.extend(list(p.reshape(-1)))
        else:
            out.append(P(p))
    return npmodel._build_obj([P(v) for v in out])


def dev(A):
    A = npmodel.to_obj(np.asarray(A))
    t = trace(A) * Fraction(1, 3)
    out = A.copy()
    for i in range(3):
        out[i, i] = out[i, i] - t
    return out


def symm(A):
    A = npmodel.to_obj(np.asarray(A))
    return (A + A.T) * Fraction(1, 2)


def real_to_dual(a, b):
    """tensortrax: a quantity X with dX = a * db (value not needed): atom with explicit derivative"""
    if isinstance(a, np.ndarray):
        out = np.empty(a.shape, dtype=object)
        bb = np.broadcast_to(np.asarray(b, dtype=object), a.shape)
        for idx in np.ndindex(a.shape):
            out[idx] = ring.ofun("R2D", [P(bb[idx])], dvals=[P(a[idx])])
        return out
    return ring.ofun("R2D", [P(b)], dvals=[P(a)])


class _Delta:
    def __init__(self, of, coeff=ONE, order=1):
        self.of = of
        self.coeff = coeff
        self.order = order

    def __mul__(self, o):
        if isinstance(o, _Delta):
            return _Delta((self.of, o.of), self.coeff * o.coeff, self.order + o.order)
        return _Delta(self.of, self.coeff * P(o), self.order)

    __rmul__ = __mul__

    def __add__(self, o):
        return _Sum([self, o])

    __radd__ = __add__


class _Sum:
    def __init__(self, items):
        self.items = items


def tensor_ctor(x=None, δx=None, Δx=None, Δδx=None, ntrax=None, **kw):
    """tensortrax.Tensor(x, δx = f(g) δ(I), ...): a function of I given through its first derivative g"""
    if not isinstance(δx, _Delta) or isinstance(δx.of, tuple):
        raise Undecided("Tensor(...) constructor idiom not recognised")
    return ring.ofun("DualFromDerivative", [P(δx.of)], dvals=[δx.coeff])


class _Base:
    @staticmethod
    def eye(C):
        n = np.asarray(C).shape[0]
        return npmodel.eye(n)


def _abs(x):
    return npmodel.np_abs(x)


def math_namespace(it):
    npns = it.externals["numpy"].ns
    linalg = ExtModule("tensortrax.math.linalg", dict(det=det, inv=npmodel.linalg_inv, eigvalsh=eigvalsh, eigh=eigh, expm=expm_symmetric))
    special = ExtModule("tensortrax.math.special", dict(try_stack=try_stack, from_triu_1d=from_triu_1d, triu_1d=triu_1d, dev=dev, sym=symm,
                                                        erf=npmodel.erf))
    mathm = ExtModule("tensortrax.math", dict(
        trace=trace, log=npmodel.log, sqrt=npmodel.sqrt, exp=npmodel.exp, sinh=npmodel.sinh, sum=tsum, einsum=npmodel.einsum,
        array=_array, maximum=npmodel.maximum, abs=_abs, base=_Base, real_to_dual=real_to_dual, linalg=linalg, special=special,
    ))
    ident = lambda x: x
    Tensor = TypeMarker("Tensor", tensor_ctor, lambda x: isinstance(x, (np.ndarray, Poly)))
    tr = ExtModule("tensortrax", dict(math=mathm, Tensor=Tensor, f=ident, **{"δ": lambda I: _Delta(I), "Δ": lambda I: _Delta(I),
                                                                              "Δδ": lambda I: _Delta(I, order=2)}))
    jnp = dict(npns)
    jl = ExtModule("jax.numpy.linalg", dict(det=det, inv=npmodel.linalg_inv, eigvalsh=eigvalsh))
    jnp.update(trace=trace, linalg=jl, sum=tsum, abs=_abs)
    jnpm = ExtModule("jax.numpy", jnp)
    jsl = ExtModule("jax.scipy.linalg", dict(expm=expm))
    jax = ExtModule("jax", dict(numpy=jnpm, Array=TypeMarker("Array", lambda *a: None, lambda x: isinstance(x, np.ndarray)),
                                scipy=ExtModule("jax.scipy", dict(linalg=jsl))))
    return {
        "tensortrax": tr, "tensortrax.math": mathm, "tensortrax.math.linalg": linalg, "tensortrax.math.special": special,
        "jax": jax, "jax.numpy": jnpm, "jax.numpy.linalg": jl, "jax.scipy": jax.ns["scipy"], "jax.scipy.linalg": jsl,
    }


def new_model_interp():
    from .common import new_interp

    it = new_interp()
    it.externals.update(math_namespace(it))
    return it


def world_C(kind, scale=None):
    if kind == "diag":
        C = np.empty((3, 3), dtype=object)
        C[...] = ZERO
        for i in range(3):
            C[i, i] = ring.sym("c%d" % (i + 1), positive=True)
    elif kind == "full":
        C = np.empty((3, 3), dtype=object)
        for i in range(3):
            for j in range(3):
                C[i, j] = ring.sym("C%d%d" % (min(i, j), max(i, j)))
    elif kind == "ray":
        C = np.empty((3, 3), dtype=object)
        C[...] = ZERO
        s = ring.sym("s", positive=True)
        for i in range(3):
            C[i, i] = s
    else:
        raise ValueError(kind)
    if scale is not None:
        C = C * scale
    if kind == "full":
        # C = F^T F with det F > 0 is symmetric positive definite: its determinant and principal minors are positive (used only to take
        # such factors out of roots: (a / det C)**(1/2) == a**(1/2) det C**(-1/2))
        ring.declare_positive(C[0, 0] * (C[1, 1] * C[2, 2] - C[1, 2] * C[2, 1]) - C[0, 1] * (C[1, 0] * C[2, 2] - C[1, 2] * C[2, 0]) + C[0, 2] * (C[1, 0] * C[2, 1] - C[1, 1] * C[2, 0]))
        for i, j in ((0, 1), (0, 2), (1, 2)):
            ring.declare_positive(C[i, i] * C[j, j] - C[i, j] * C[j, i])
    return C
